"""BOUNDED stand-in (C19): nothing a peer sends stops the local event loop or escapes add_buffer.
A grammar of hostile packets (JSON mutations, hostile metadata keys, truncations, oversized values) is fed to a real
Protocol inside a real Manager which is then ticked.  Output: JSON lines {ob, ok, detail}."""
import json, sys
from circuits import Component, Event, handler
from circuits.node.protocol import Protocol, DELIMITER
from circuits.node.utils import dump_event, META_EXCLUDE
tier = sys.argv[1] if len(sys.argv) > 1 else 'quick'

class hello(Event):
    pass

base = json.loads(dump_event(hello('x'), 1))
packets = []
def P(d):
    return json.dumps(d).encode('utf-8')
# structural mutations
for key in list(base):
    d = dict(base); del d[key]; packets.append(('missing ' + key, P(d)))
    for v in (None, 1, 'x', [], {}, [[1]], {'a': 1}):
        d = dict(base); d[key] = v; packets.append(('%s=%r' % (key, v), P(d)))
# hostile metadata keys: everything the dispatcher looks at, plus dunder and private names
hostile_keys = ['cause', 'effects', 'complete', 'complete_channels', 'success_channels', 'waitingHandlers', 'cancelled', 'stopped', 'value',
                'handler', 'alert_done', 'parent', 'name', 'args', 'kwargs', 'channels', '__class__', '__dict__', '_time_left', 'lock', 'uid']
for k in hostile_keys:
    for v in (1, 'x', None, [1], {'a': 1}, True):
        d = dict(base); d['meta'] = {k: v}; packets.append(('meta %s=%r' % (k, v), P(d)))
packets += [('truncated', P(base)[:10]), ('not json', b'{]'), ('binary', b'\xff\xfe\x00'), ('empty', b''), ('list', b'[1,2]'), ('number', b'42'),
            ('value packet', P({'id': 1, 'errors': False, 'value': 1, 'meta': {'cause': 1}})),
            ('value packet bad', P({'value': 1})), ('huge', P(dict(base, args=['y' * (200000 if tier == 'thorough' else 20000)])))]
seen = []
class App(Component):
    def hello(self, *a, **k): seen.append(a)
    def exception(self, *a, **k): pass
crashes = []
escapes = []
for what, pk in packets:
    app = App()
    proto = Protocol().register(app)
    app.tick()
    try:
        proto.add_buffer(pk + DELIMITER)
    except BaseException as e:
        escapes.append('%s: add_buffer raised %r' % (what, e))
        continue
    try:
        for _ in range(4):
            app.tick()
    except BaseException as e:
        crashes.append('%s: the event loop raised %r' % (what, e))
print(json.dumps({'ob': 'add_buffer_absorbs_every_packet', 'ok': not escapes, 'detail': '%d hostile packets; escapes: %s' % (len(packets), escapes[:3])}))
print(json.dumps({'ob': 'loop_survives_every_packet', 'ok': not crashes, 'detail': '%d hostile packets; loop failures: %s' % (len(packets), crashes[:4])}))
sys.exit(1 if (escapes or crashes) else 0)

"""BOUNDED stand-in (C19): JSON serialisation of events and values preserves name, args, kwargs, channels and feedback flags.
Enumerates events over a small grammar of JSON-representable arguments.  Output: JSON lines {ob, ok, detail}."""
import itertools, json, sys
from circuits import Event
from circuits.core import Value
from circuits.node.utils import dump_event, load_event, dump_value, load_value
tier = sys.argv[1] if len(sys.argv) > 1 else 'quick'
ATOMS = [0, -1, 1.5, '', 'a~~~b', 'é', None, True, [1, 'x'], {'k': [1]}] + (['x' * 5000, [[]], {'a': {'b': None}}] if tier == 'thorough' else [])
bad = None
n = 0
for args in itertools.chain([()], [(a,) for a in ATOMS], itertools.product(ATOMS[:5], repeat=2)):
    for kwargs in ({}, {'k': 1}, {'k': 'v', 'l': [1, 2]}):
        for flags in itertools.product((False, True), repeat=3):
            for channels in ((), ('a',), ('a', 'b')):
                class hello(Event):
                    pass
                e = hello(*args, **kwargs)
                e.success, e.failure, e.notify = flags
                e.channels = channels
                e2, id2 = load_event(dump_event(e, 7))
                n += 1
                got = (e2.name, e2.args, e2.kwargs, tuple(e2.channels), e2.success, e2.failure, e2.notify, id2)
                exp = ('hello', list(args), kwargs, channels, flags[0], flags[1], flags[2], 7)
                if got != exp and bad is None:
                    bad = 'event %r -> %r' % (exp, got)
print(json.dumps({'ob': 'event_roundtrip', 'ok': bad is None, 'detail': '%d events round-trip through dump_event/load_event%s' % (n, '' if bad is None else '; first failure: ' + bad)}))
badv = None
m = 0
for val in ATOMS:
    for err in (False, True):
        v = Value()
        v._value = val
        v.errors = err
        v.node_call_id = 3
        v.event = None
        val2, id2, err2, meta = load_value(dump_value(v))
        m += 1
        if (val2, id2, err2) != (val, 3, err) and badv is None:
            badv = '%r -> %r' % ((val, 3, err), (val2, id2, err2))
print(json.dumps({'ob': 'value_roundtrip', 'ok': badv is None, 'detail': '%d values round-trip through dump_value/load_value%s' % (m, '' if badv is None else '; first failure: ' + badv)}))
sys.exit(1 if (bad or badv) else 0)

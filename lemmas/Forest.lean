/-
  Lemma G8 of the forest invariant (used by the contracts of getHandlers and _updateRoot, C01 / C07):
  every member of sub[y] other than y itself lies in the subtree of some child of y.

  It is derived from the conjuncts the verifier proves for every operation:
    G2  reflexivity           sub x x
    G4  upward unfolding      x ∈ sub[y]  ↔  x = y ∨ (parent x ≠ x ∧ parent x ∈ sub[y])
  and from well-foundedness of the parent relation, given as a rank function that strictly decreases towards the parent
  (a finite acyclic forest has one: the depth; acyclicity is conjunct G7, finiteness is what stays assumed).
-/
namespace Forest
variable {α : Type}

theorem G8 (parent : α → α) (sub : α → α → Prop) (depth : α → Nat)
    (hdepth : ∀ x, parent x ≠ x → depth (parent x) < depth x)
    (G2 : ∀ x, sub x x)
    (G4 : ∀ x y, sub y x ↔ (x = y ∨ (parent x ≠ x ∧ sub y (parent x)))) :
    ∀ (n : Nat) (x y : α), depth x = n → sub y x → x ≠ y → ∃ c, parent c = y ∧ c ≠ y ∧ sub c x := by
  intro n
  induction n using Nat.strongRecOn with
  | _ n ih =>
    intro x y hn hsub hne
    have h := (G4 x y).mp hsub
    cases h with
    | inl heq => exact absurd heq hne
    | inr hp =>
      obtain ⟨hpx, hsubp⟩ := hp
      by_cases hpy : parent x = y
      · exact ⟨x, hpy, hne, G2 x⟩
      · have hlt : depth (parent x) < n := by rw [← hn]; exact hdepth x hpx
        obtain ⟨c, hc1, hc2, hc3⟩ := ih (depth (parent x)) hlt (parent x) y rfl hsubp hpy
        exact ⟨c, hc1, hc2, (G4 x c).mpr (Or.inr ⟨hpx, hc3⟩)⟩

theorem G8' (parent : α → α) (sub : α → α → Prop) (depth : α → Nat)
    (hdepth : ∀ x, parent x ≠ x → depth (parent x) < depth x)
    (G2 : ∀ x, sub x x)
    (G4 : ∀ x y, sub y x ↔ (x = y ∨ (parent x ≠ x ∧ sub y (parent x))))
    (x y : α) (hsub : sub y x) (hne : x ≠ y) : ∃ c, parent c = y ∧ c ≠ y ∧ sub c x :=
  G8 parent sub depth hdepth G2 G4 (depth x) x y rfl hsub hne
end Forest

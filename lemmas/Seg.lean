namespace Seg
variable {B C O : Type}

structure Stepper (B C O : Type) where
  step : C → List B → Option (C × List O × Nat)
  pos   : ∀ c x c' o n, step c x = some (c', o, n) → 0 < n ∧ n ≤ x.length
  local_ : ∀ c x c' o n, step c x = some (c', o, n) → ∀ y, step c (x ++ y) = some (c', o, n)

def run (P : Stepper B C O) (c : C) (x : List B) : C × List B × List O :=
  match h : P.step c x with
  | none => (c, x, [])
  | some (c', o, n) =>
    have : x.length - n < x.length := by
      have := P.pos c x c' o n h
      omega
    let r := run P c' (x.drop n)
    (r.1, r.2.1, o ++ r.2.2)
termination_by x.length

theorem run_none (P : Stepper B C O) (c : C) (x : List B) (h : P.step c x = none) :
    run P c x = (c, x, []) := by
  rw [run]; split
  · rfl
  · rename_i h'; rw [h] at h'; cases h'

theorem run_some (P : Stepper B C O) (c : C) (x : List B) (c' : C) (o : List O) (n : Nat)
    (h : P.step c x = some (c', o, n)) :
    run P c x = ((run P c' (x.drop n)).1, (run P c' (x.drop n)).2.1, o ++ (run P c' (x.drop n)).2.2) := by
  rw [run]; split
  · rename_i h'; rw [h] at h'; cases h'
  · rename_i c'' o' n' h'; rw [h] at h'; cases h'; rfl

theorem run_append (P : Stepper B C O) :
    ∀ (k : Nat) (c : C) (x y : List B), x.length = k →
      run P c (x ++ y) =
        ((run P (run P c x).1 ((run P c x).2.1 ++ y)).1,
         (run P (run P c x).1 ((run P c x).2.1 ++ y)).2.1,
         (run P c x).2.2 ++ (run P (run P c x).1 ((run P c x).2.1 ++ y)).2.2) := by
  intro k
  induction k using Nat.strongRecOn with
  | _ k ih =>
    intro c x y hk
    cases hs : P.step c x with
    | none => rw [run_none P c x hs]; simp
    | some t =>
      obtain ⟨c', o, n⟩ := t
      have hp := P.pos c x c' o n hs
      have hl := P.local_ c x c' o n hs y
      have hdrop : (x ++ y).drop n = x.drop n ++ y := List.drop_append_of_le_length hp.2
      have hlen : (x.drop n).length < k := by simp [List.length_drop]; omega
      have h1 := ih _ hlen c' (x.drop n) y rfl
      rw [run_some P c (x ++ y) c' o n hl, hdrop, run_some P c x c' o n hs]
      simp only []
      rw [h1]
      simp [List.append_assoc]

theorem run_stops (P : Stepper B C O) :
    ∀ (k : Nat) (c : C) (x : List B), x.length = k →
      P.step (run P c x).1 (run P c x).2.1 = none := by
  intro k
  induction k using Nat.strongRecOn with
  | _ k ih =>
    intro c x hk
    cases hs : P.step c x with
    | none => rw [run_none P c x hs]; exact hs
    | some t =>
      obtain ⟨c', o, n⟩ := t
      have hp := P.pos c x c' o n hs
      have hlen : (x.drop n).length < k := by simp [List.length_drop]; omega
      rw [run_some P c x c' o n hs]
      exact ih _ hlen c' (x.drop n) rfl

def feed (P : Stepper B C O) (s : C × List B) (d : List B) : (C × List B) × List O :=
  let r := run P s.1 (s.2 ++ d)
  ((r.1, r.2.1), r.2.2)

theorem feed_append (P : Stepper B C O) (s : C × List B) (a b : List B) :
    feed P s (a ++ b) =
      ((feed P (feed P s a).1 b).1, (feed P s a).2 ++ (feed P (feed P s a).1 b).2) := by
  unfold feed
  simp only []
  rw [← List.append_assoc, run_append P _ s.1 (s.2 ++ a) b rfl]

def feedAll (P : Stepper B C O) : (C × List B) → List (List B) → (C × List B) × List O
  | s, [] => (s, [])
  | s, d :: ds => let r := feed P s d; let r' := feedAll P r.1 ds; (r'.1, r.2 ++ r'.2)

theorem feed_nil (P : Stepper B C O) (s : C × List B) (h : P.step s.1 s.2 = none) :
    feed P s [] = (s, []) := by
  unfold feed; simp [run_none P s.1 s.2 h]

theorem feedAll_join (P : Stepper B C O) :
    ∀ (ds : List (List B)) (s : C × List B), P.step s.1 s.2 = none →
      feedAll P s ds = feed P s ds.flatten := by
  intro ds
  induction ds with
  | nil => intro s h; simp [feedAll, feed_nil P s h]
  | cons d ds ih =>
    intro s h
    have hstash : P.step (feed P s d).1.1 (feed P s d).1.2 = none := by
      unfold feed; exact run_stops P _ _ _ rfl
    simp only [feedAll, List.flatten_cons]
    rw [ih _ hstash, feed_append]

theorem segmentation_invariant (P : Stepper B C O) (c : C) (ds es : List (List B))
    (h : ds.flatten = es.flatten) : feedAll P (c, []) ds = feedAll P (c, []) es := by
  have hnone : P.step c [] = none := by
    cases hs : P.step c [] with
    | none => rfl
    | some t =>
      obtain ⟨c', o, n⟩ := t
      have := P.pos c [] c' o n hs
      simp at this; omega
  rw [feedAll_join P ds (c, []) hnone, feedAll_join P es (c, []) hnone, h]
end Seg

/-
  C18: segmentation invariance of the line protocol from the concatenation axiom of the splitter.

  `split` stands for re.split(b'\r?\n', ·).  Its three hypotheses (non-empty result, split [] = [[]], and the
  concatenation law) are the *trusted axiom* validated against CPython in bounded/split_axiom.py.
  `feed` is exactly what the verifier proves about splitLines / Line._on_read (stash discipline V1):
  the splitter is applied to stash ++ data, all pieces but the last are emitted, the last piece is the new stash.
-/
namespace Split
variable {B : Type}

structure Splitter (B : Type) where
  split : List B → List (List B)
  ne    : ∀ x, split x ≠ []
  nil   : split [] = [[]]
  cat   : ∀ x y, split (x ++ y) = (split x).dropLast ++ split ((split x).getLast (ne x) ++ y)

def feed (P : Splitter B) (stash d : List B) : List (List B) × List B :=
  ((P.split (stash ++ d)).dropLast, (P.split (stash ++ d)).getLast (P.ne _))

def feedAll (P : Splitter B) : List B → List (List B) → List (List B) × List B
  | s, [] => ([], s)
  | s, d :: ds => ((feed P s d).1 ++ (feedAll P (feed P s d).2 ds).1, (feedAll P (feed P s d).2 ds).2)

theorem step (P : Splitter B) (x d : List B) :
    (P.split x).dropLast ++ (feed P ((P.split x).getLast (P.ne x)) d).1 = (P.split (x ++ d)).dropLast ∧
    (feed P ((P.split x).getLast (P.ne x)) d).2 = (P.split (x ++ d)).getLast (P.ne _) := by
  have hc := P.cat x d
  have hne := P.ne ((P.split x).getLast (P.ne x) ++ d)
  constructor
  · simp only [feed]
    rw [hc, List.dropLast_append_of_ne_nil hne]
  · simp only [feed]
    simp [hc, List.getLast_append_of_ne_nil, hne]

theorem feedAll_spec (P : Splitter B) :
    ∀ (ds : List (List B)) (x : List B),
      (P.split x).dropLast ++ (feedAll P ((P.split x).getLast (P.ne x)) ds).1 = (P.split (x ++ ds.flatten)).dropLast ∧
      (feedAll P ((P.split x).getLast (P.ne x)) ds).2 = (P.split (x ++ ds.flatten)).getLast (P.ne _) := by
  intro ds
  induction ds with
  | nil => intro x; simp [feedAll]
  | cons d ds ih =>
    intro x
    have hs := step P x d
    have h2 := ih (x ++ d)
    simp only [feedAll, List.flatten_cons]
    rw [hs.2]
    constructor
    · rw [← List.append_assoc, hs.1, h2.1, List.append_assoc]
    · rw [h2.2]; simp [List.append_assoc]

/-- Starting from the empty stash, the emitted lines and the final stash depend only on the concatenated stream. -/
theorem whole_stream (P : Splitter B) (ds : List (List B)) :
    feedAll P [] ds = ((P.split ds.flatten).dropLast, (P.split ds.flatten).getLast (P.ne _)) := by
  have h := feedAll_spec P ds []
  have h0 : (P.split []).getLast (P.ne []) = [] := by simp [P.nil]
  rw [h0] at h
  simp [P.nil] at h
  exact Prod.ext h.1 h.2

theorem segmentation_invariant (P : Splitter B) (ds es : List (List B)) (h : ds.flatten = es.flatten) :
    feedAll P [] ds = feedAll P [] es := by
  rw [whole_stream, whole_stream]; simp [h]

end Split
